"""Symbolic value universe of vcgen (shared by the Python, Cython and clang front ends).

A symbolic value is either a z3 expression (Int, Bool, Real) or one of the wrappers below.
Sort descriptors (used in contracts to declare parameters and fields) are the small classes
INT/BOOL/REAL/STR/REF/LIST/DICT/SET/TUPLE/OPT.
"""
import itertools
import z3

_counter = itertools.count()


def fresh_name(base):
    return "%s!%d" % (base, next(_counter))


class Unsupported(Exception):
    """The function left the modelled subset; reported, never silently skipped."""


# ---------------------------------------------------------------- sort descriptors
class Sort:
    def z3sort(self):
        raise NotImplementedError

    def fresh(self, name):
        raise NotImplementedError

    def __repr__(self):
        return self.__class__.__name__


class _Int(Sort):
    def z3sort(self):
        return z3.IntSort()

    def fresh(self, name):
        return z3.Int(fresh_name(name))


class _Bool(Sort):
    def z3sort(self):
        return z3.BoolSort()

    def fresh(self, name):
        return z3.Bool(fresh_name(name))


class _Real(Sort):
    def z3sort(self):
        return z3.RealSort()

    def fresh(self, name):
        return z3.Real(fresh_name(name))


INT, BOOL, REAL = _Int(), _Bool(), _Real()


class BV(Sort):
    """fixed-width machine integer (C++ front end)"""

    def __init__(self, width, signed=False):
        self.width, self.signed = width, signed

    def z3sort(self):
        return z3.BitVecSort(self.width)

    def fresh(self, name):
        return z3.BitVec(fresh_name(name), self.width)

    def __repr__(self):
        return "BV(%d,%s)" % (self.width, "s" if self.signed else "u")


class CBOOL(Sort):
    """C++ bool"""

    def z3sort(self):
        return z3.BoolSort()

    def fresh(self, name):
        return z3.Bool(fresh_name(name))


class REF(Sort):
    """Reference to a heap object of class cls; 0 is None."""

    def __init__(self, cls):
        self.cls = cls

    def z3sort(self):
        return z3.IntSort()

    def fresh(self, name):
        return VRef(self.cls, z3.Int(fresh_name(name)))

    def __repr__(self):
        return "REF(%s)" % self.cls


_opt_cache = {}


class OPT(Sort):
    """Optional[inner] for a z3-sorted inner (used for GT alleles: None | int)."""

    def __init__(self, inner):
        self.inner = inner
        key = str(inner.z3sort())
        if key not in _opt_cache:
            dt = z3.Datatype("Opt_" + key)
            dt.declare("none")
            dt.declare("some", ("val", inner.z3sort()))
            _opt_cache[key] = dt.create()
        self.dt = _opt_cache[key]

    def z3sort(self):
        return self.dt

    def fresh(self, name):
        return VOpt(self, z3.Const(fresh_name(name), self.dt))

    def __repr__(self):
        return "OPT(%r)" % self.inner


_tuple_cache = {}


class TUPLE(Sort):
    def __init__(self, *items):
        self.items = items
        key = ",".join(str(i.z3sort()) for i in items)
        if key not in _tuple_cache:
            dt = z3.Datatype("Tup_" + key.replace(",", "_").replace(" ", ""))
            dt.declare("mk", *[("f%d" % i, it.z3sort()) for i, it in enumerate(items)])
            _tuple_cache[key] = dt.create()
        self.dt = _tuple_cache[key]

    def z3sort(self):
        return self.dt

    def fresh(self, name):
        return VTuple([it.fresh("%s.%d" % (name, i)) for i, it in enumerate(self.items)])

    def __repr__(self):
        return "TUPLE%r" % (self.items,)


_list_cache = {}


class LIST(Sort):
    """Python list / str / C++ vector: (Array Int->elem, length).  Value semantics (see engine:
    in-place mutation of a list that may be aliased is reported Unsupported)."""

    def __init__(self, elem, is_str=False):
        self.elem = elem
        self.is_str = is_str

    def z3sort(self):
        # a list as a VALUE inside another container (dict values, tuple items): the pair (array, length)
        es = self.elem.z3sort()
        key = str(es) + ("#s" if self.is_str else "")
        if key not in _list_cache:
            dt = z3.Datatype("List_" + "".join(ch for ch in key if ch.isalnum()))
            dt.declare("mk", ("arr", z3.ArraySort(z3.IntSort(), es)), ("len", z3.IntSort()))
            _list_cache[key] = dt.create()
        return _list_cache[key]

    def fresh(self, name):
        n = z3.Int(fresh_name(name + ".len"))
        return VList(self.elem, z3.Array(fresh_name(name + ".arr"), z3.IntSort(), self.elem.z3sort()), n,
                     is_str=self.is_str, fresh_len=True)

    def __repr__(self):
        return "STR" if self.is_str else "LIST(%r)" % self.elem


STR = LIST(INT, is_str=True)  # a string is a list of code points


_dict_cache = {}


class DICT(Sort):
    def __init__(self, key, val):
        self.key, self.val = key, val

    def fresh(self, name):
        return VDict(self.key, self.val,
                     z3.Array(fresh_name(name + ".dom"), self.key.z3sort(), z3.BoolSort()),
                     z3.Array(fresh_name(name + ".map"), self.key.z3sort(), self.val.z3sort()))

    def z3sort(self):
        # a dict as a VALUE inside another container: the pair (domain, map)
        ks, vs = self.key.z3sort(), self.val.z3sort()
        key = str(ks) + "->" + str(vs)
        if key not in _dict_cache:
            dt = z3.Datatype("Dict_" + "".join(ch for ch in key if ch.isalnum()))
            dt.declare("mk", ("dom", z3.ArraySort(ks, z3.BoolSort())), ("map", z3.ArraySort(ks, vs)))
            _dict_cache[key] = dt.create()
        return _dict_cache[key]

    def __repr__(self):
        return "DICT(%r,%r)" % (self.key, self.val)


class SET(Sort):
    def __init__(self, key):
        self.key = key

    def fresh(self, name):
        return VSet(self.key, z3.Array(fresh_name(name + ".dom"), self.key.z3sort(), z3.BoolSort()))

    def z3sort(self):
        return z3.ArraySort(self.key.z3sort(), z3.BoolSort())

    def __repr__(self):
        return "SET(%r)" % self.key


class MAYBE(Sort):
    """Optional[container]: the container value plus a flag `none`.  `x is None` reads the flag; len / index / iteration / membership
    on the value carry the obligation `not none` (TypeError otherwise)."""

    def __init__(self, inner):
        self.inner = inner

    def fresh(self, name):
        v = self.inner.fresh(name)
        v.none = z3.Bool(fresh_name(name + ".is_none"))
        return v

    def __repr__(self):
        return "MAYBE(%r)" % self.inner


# ---------------------------------------------------------------- value wrappers
class VNoneType:
    def __repr__(self):
        return "NONE"


NONE = VNoneType()


class VRef:
    def __init__(self, cls, ref):
        self.cls, self.ref = cls, ref

    def __repr__(self):
        return "VRef(%s,%s)" % (self.cls, self.ref)


class VOpt:
    def __init__(self, sort, expr):
        self.sort, self.expr = sort, expr

    def is_none(self):
        return self.sort.dt.is_none(self.expr)

    def val(self):
        return self.sort.dt.val(self.expr)


class VTuple:
    def __init__(self, items):
        self.items = list(items)

    def __repr__(self):
        return "VTuple%r" % (self.items,)


class VList:
    def __init__(self, elem, arr, length, is_str=False, fresh_len=False):
        self.elem, self.arr, self.len, self.is_str = elem, arr, length, is_str
        self.fresh_len = fresh_len

    def sort(self):
        return LIST(self.elem, self.is_str)

    def __repr__(self):
        return "VList(%r,len=%s)" % (self.elem, self.len)


class VDict:
    def __init__(self, key, val, dom, map_):
        self.key, self.val, self.dom, self.map = key, val, dom, map_

    def sort(self):
        return DICT(self.key, self.val)


class VDictItems:
    """d.items(): iterated like the key set (an unknown enumeration without repetition), yielding (key, value) pairs"""

    def __init__(self, d):
        self.d = d


class VSet:
    def __init__(self, key, dom):
        self.key, self.dom = key, dom

    def sort(self):
        return SET(self.key)


class VRange:
    def __init__(self, lo, hi, step=1):
        self.lo, self.hi, self.step = lo, hi, step


class VCount:
    """itertools.count(start, step)"""

    def __init__(self, start, step):
        self.start, self.step = start, step


class VZip:
    def __init__(self, parts):
        self.parts = parts


class VEnumerate:
    def __init__(self, inner, start=0):
        self.inner, self.start = inner, start


class VGen:
    """A generator expression / comprehension kept unevaluated until consumed by sum/all/any/join/list."""

    def __init__(self, node, env_snapshot):
        self.node, self.env = node, env_snapshot


class VConstDict:
    """dict literal with constant (string/int) keys, e.g. {"0": "1", "1": "0"}"""

    def __init__(self, items):
        self.items = items   # list of (key value, value)


class VLambda:
    """a lambda expression as a value (only ever applied by the models of sort/sorted/max/min `key=`); free variables are read from the environment at
    application time, which is the environment of the call it is an argument of"""

    def __init__(self, node):
        self.node = node


class VModel:
    """Base class of plug-in model objects (pysam records, files, ...) defined in contract files."""

    def sym_getattr(self, eng, st, name):
        raise Unsupported("attribute %s of model %s" % (name, type(self).__name__))

    def sym_call_method(self, eng, st, name, args, kwargs):
        raise Unsupported("method %s of model %s" % (name, type(self).__name__))


def sort_of(v):
    """Sort descriptor of a symbolic value (for havoc)."""
    if isinstance(v, bool):
        return BOOL
    if isinstance(v, int):
        return INT
    if isinstance(v, float):
        return REAL
    if isinstance(v, z3.ExprRef):
        s = v.sort()
        if s == z3.IntSort():
            return INT
        if s == z3.BoolSort():
            return BOOL
        if s == z3.RealSort():
            return REAL
        if isinstance(s, z3.BitVecSortRef):
            return BV(s.size())
        raise Unsupported("sort_of %s" % s)
    if isinstance(v, VRef):
        return REF(v.cls)
    if isinstance(v, VOpt):
        return v.sort
    if isinstance(v, VTuple):
        return TUPLE(*[sort_of(i) for i in v.items])
    if isinstance(v, (VList, VDict, VSet)):
        return v.sort()
    if v is NONE:
        raise Unsupported("havoc of a variable holding None (declare its sort in the contract)")
    raise Unsupported("sort_of %r" % (v,))


def to_z3(v, sort=None):
    """Lower a symbolic value to one z3 expression (for storing in arrays / comparing)."""
    if isinstance(v, VModel) and hasattr(v, "as_value"):
        v = v.as_value()
    if isinstance(v, bool):
        return z3.BoolVal(v)
    if isinstance(v, int):
        if sort is not None and isinstance(sort, _Real):
            return z3.RealVal(v)
        return z3.IntVal(v)
    if isinstance(v, float):
        return z3.RealVal(repr(v))
    if isinstance(v, z3.ExprRef):
        if sort is not None and isinstance(sort, _Real) and v.sort() == z3.IntSort():
            return z3.ToReal(v)
        return v
    if isinstance(v, VRef):
        return v.ref
    if v is NONE:
        if isinstance(sort, REF):
            return z3.IntVal(0)
        if isinstance(sort, OPT):
            return sort.dt.none
        raise Unsupported("None lowered without a declared sort")
    if isinstance(v, VOpt):
        return v.expr
    if isinstance(v, VSet):
        return v.dom
    if isinstance(v, VList):
        dt = LIST(v.elem, v.is_str).z3sort()
        return dt.mk(v.arr, v.len)
    if isinstance(v, VDict):
        dt = DICT(v.key, v.val).z3sort()
        return dt.mk(v.dom, v.map)
    if isinstance(v, VTuple):
        s = sort if isinstance(sort, TUPLE) else sort_of(v)
        return s.dt.mk(*[to_z3(i, si) for i, si in zip(v.items, s.items)])
    raise Unsupported("to_z3 %r" % (v,))


def from_z3(e, sort):
    """Wrap a z3 expression of the given sort descriptor back into a symbolic value."""
    if isinstance(sort, REF):
        return VRef(sort.cls, e)
    if isinstance(sort, OPT):
        return VOpt(sort, e)
    if isinstance(sort, TUPLE):
        return VTuple([from_z3(sort.dt.accessor(0, i)(e), it) for i, it in enumerate(sort.items)])
    if isinstance(sort, SET):
        return VSet(sort.key, e)
    if isinstance(sort, LIST):
        dt = sort.z3sort()
        return VList(sort.elem, dt.arr(e), dt.len(e), sort.is_str)
    if isinstance(sort, DICT):
        dt = sort.z3sort()
        return VDict(sort.key, sort.val, dt.dom(e), dt.map(e))
    return e


def forall_pat(vs, body, patterns=None):
    """ForAll with explicit patterns when z3 accepts them (terms containing lambdas are not valid patterns), else without"""
    if patterns:
        try:
            return z3.ForAll(vs, body, patterns=patterns)
        except z3.Z3Exception:
            pass
        ok = []
        for pt in patterns:
            try:
                z3.ForAll(vs, body, patterns=[pt])
                ok.append(pt)
            except z3.Z3Exception:
                pass
        if ok:
            return z3.ForAll(vs, body, patterns=ok)
    return z3.ForAll(vs, body)
